#!/usr/bin/env python3
"""Regenerates /verif/MANIFEST.json from the table below (kept here so the manifest
stays consistent with what the checker registers: `bin/oxycheck list`)."""
import json, subprocess, sys, os

ROOT = os.path.dirname(os.path.dirname(os.path.abspath(__file__)))

BASELINE_OFF = ("cd /repo && GOFLAGS=-mod=mod GOPROXY=off GOSUMDB=off go build ./... && "
                "GOFLAGS=-mod=mod GOPROXY=off GOSUMDB=off go test -json -vet=off -count=1 -timeout 25m ./...")

# property -> (technique, level text, level note (trusted base / not decided), design ref)
P = {
 "C01": ("must-lockset + must-pass-through + who-may-write + algorithm-shape normal forms (index step, gcd/max folds, Euclid loop, level comparison) over the SSA of the balancer",
         "Structural necessary conditions of exact weighted round-robin: every access to the iterator/pool state is serialised by the balancer mutex on every call path; every pool change passes the iterator reset before returning; the iterator is written only by the selection routine and the reset; a server is returned only on the weight>=level edge; the modulo is guarded; pool-derived caches are refreshed on all exits; and the selection routine IS the classical gcd/maximum-level sweep (index +1 mod n, level lowered by the gcd fold of all weights exactly on wrap-around, re-armed with the max fold exactly at level<=0, taken iff weight>=level, Euclid's loop). Level 'other': a lint with a stated argument, not a proof of the theorem about that algorithm.",
         "NOT decided: the exactness theorem of the classical algorithm itself (paper argument); an equivalent but different algorithm is reported as UNDECIDED. Trusted: go/ssa, VTA call graph, the analyser.", "3/C01, 10.2"),
 "C02": ("edge-guard (delete-edge reachability), must-pass-through, value-flow (ownership of pool URLs), sibling agreement of identity functions",
         "Per-operation necessary conditions of 'traffic only to current members': append to a pool only on the identity-lookup miss edge, remove fails without side effect on the miss edge and passes the reset on success, rebalancer mirrors and resets, selection error -> error handler and no forward, one identity function over {Scheme,Host,Path}, every pool URL handed downstream is a copy.",
         "NOT decided: 'added server selected within one rotation' (arithmetic of C01), whole-history agreement with a reference set. Trusted: go/ssa, analyser, utils.CopyURL copies.", "3/C02"),
 "C03": ("must-pass-through + value provenance on the limiter; edge guards, normal forms and dimension analysis on the bucket",
         "Structural necessary conditions of the rate bound: entry lifetime re-armed on every access with the lookup key, fresh buckets only on the miss edge, debit only on the available>=tokens edge, credit paired with the checkpoint of the same 'now' and followed by the burst cap, credited amount has dimension tokens, all buckets consulted and rolled back together.",
         "NOT decided: the numeric bound burst+T/(period/average)+1 itself over all histories. Trusted: go/ssa, analyser, TTLMap/heap semantics.", "3/C03"),
 "C04": ("must-lockset, who-may-write, defer/edge-guard path rules and linear normal form of the admission test",
         "All obligations (O1-O4) of a complete structural argument for the connection limit: lock discipline on the counter, single increment/decrement with the same key and amount, release registered by defer exactly on the admitted edge before the handler with nothing in between, reject iff count>=max with no store on the reject edge. Every path of the three functions is enumerated on the SSA CFG.",
         "Assumes extractors/handlers do not touch limiter state; amount>1 extractors may overshoot by amount-1 (statement counts requests). Trusted: go/ssa, analyser, sync.Mutex.", "3/C04"),
 "C09": ("interprocedural flow-sensitive must-lockset with access paths (Eraser-style, static), lock-pairing path rule",
         "Every exported method of every public handler / mutex-owning type is a concurrent entry point; every read and write of receiver-reachable state on every call path (module callees in context, goroutines, String() reached through %v logging) is recorded with the locks certainly held, and every conflicting pair must share an excluding lock; readers that clean up count as writers; objects behind interfaces that are not concurrency-safe by contract count as written by each call; every Lock reaches its Unlock on all paths. Level 'other': a static race lint with stated unsoundness, exhaustive over call paths where tests sample schedules.",
         "NOT decided: atomicity across two critical sections, races inside user-supplied objects, aliasing through two different access paths, values with undetermined path (counted in evidence). Exempt by name: Wrap/Fallback/SetCookieValue wiring setters, SetDefaultWeight, test-only clock provider. Known finding K2 (CircuitBreaker.String unsynchronised) is printed as KNOWN-FINDING. Trusted: go/ssa, VTA, analyser, table of concurrency-safe interfaces.", "3/C09"),
 "C16": ("decision-table extraction (path enumeration + phi resolution, compared on all atom assignments), registry check of the ReverseProxy literal, defer/ordering path rule",
         "The standard error handler's status table is extracted from all CFG paths and compared with 504/502/502/499/500 on every assignment of {net.Error, Timeout, io.EOF, context.Canceled}; exactly one WriteHeader then a body write on every path; forward.New binds that handler as ReverseProxy.ErrorHandler and leaves relay hooks to the stdlib (a configured BufferPool must allocate per Get); the state listener's 'disconnected' is registered with defer after 'connected', before the wrapped handler, for the same URL. Level 'other'.",
         "NOT decided: which error values the transport produces per failure mode, 'never a hang', byte-faithful relay (delegated to net/http/httputil, trusted). Trusted: go/ssa, analyser.", "3/C16"),
 "C17": ("expression reconstruction with dimension (unit) inference, edge-guard and must-pass-through path rules",
         "Structural necessary conditions of the rolling window: the value reduced modulo the bucket count is dimensionless slots (quantised time / resolution) and the clean-up quantises on the same grid with a strict later-slot test and zeroes the mapped bucket; every exported counter method cleans up before any bucket access on every path; every ratio divides only on the denominator-non-zero edge and returns 0 otherwise. Level 'other'.",
         "NOT decided: the two-sided window inequality over all histories (arithmetic; no sound static argument in reach), loop bounds of the clean-up. Trusted: go/ssa, analyser, time.Time.Truncate semantics.", "3/C17"),
 "C19": ("decision-table extraction over NewExtractor + value provenance (def-use) of the returned token",
         "NewExtractor's dispatch is extracted as a decision table (supported variables return an extractor, everything else a non-nil error); client.ip's token must be exactly the host result of an allow-listed host:port parser applied to req.RemoteAddr on its success edge (first-colon splitters are definite violations, other derivations UNDECIDED), request.host returns req.Host itself, request.header.X returns req.Header.Get(X) with X the suffix; amount is the constant 1 on success. Level 'other'.",
         "NOT decided: behaviour of net.SplitHostPort itself (stdlib, trusted). Trusted: go/ssa, analyser.", "3/C19"),
 "C13": ("path pairing rules, edge-deletion reachability for the rollback trigger, expression normal form + dimension for the advertised delay, decision table of the rate error handler, must-lockset for the critical section",
         "Structural necessary conditions of 'rejections cost nothing': debit paired with lastConsumed on every path and undone exactly by rollback; the set rolls back every bucket exactly on firstErr != nil || maxDelay > 0 and folds delays only from error-free buckets; over-burst returns an error before any debit; the advertised delay has normal form (tokens-available) x timePerToken; the limiter surfaces the bucket error first and the same delay as MaxRateError; the handler answers 429 with X-Retry-In = that delay unrounded, set before WriteHeader; consume and rollback of one request form one critical section under the limiter mutex. Level 'other'.",
         "NOT decided: that waiting the advertised delay suffices, idle refill time (integer-division arithmetic over reachable states). Trusted: go/ssa, analyser.", "3/C13"),
 "C10": ("edge-guard with linear normal forms (cap), control dependence on the good flag, event/result correlation for the back-off timer, must-lockset on the timer, if-then-else shape of the convergence step",
         "Structural necessary conditions: increased weight stored only on C - k*cur >= 0 with C <= 4096; increases control-dependent on the record's good flag which is assigned from the splitter's good set; normalisation uniform; all weight applications on the timer-expired edge evaluated under the mutex and followed by re-arming now+backoff; reset() restores/re-applies all records, re-arms the timer and re-allocates the ratings buffer to len(servers); convergence step is max(configured, current/factor). Level 'other'.",
         "NOT decided: weight >= 1 floor after gcd normalisation, 'loses share within two back-off intervals', 'configured proportions within six adjustments', the outlier statistic: numerical facts over rating histories. Trusted: go/ssa, analyser.", "3/C10"),
 "C05": ("finite-domain typestate abstract interpretation of the state field (all pre-states per transition site), must-lockset, edge guards with time normal forms, provenance of the deadline",
         "Lock discipline of state/until/rc/lastCheck; the transition relation extracted for ALL pre-states is a subset of {S->T, R->T, T->R, R->S}; no let-through return can have 'tripped' among its possible states; leaving tripped only on now >= until tested under the exclusive lock; deadlines are now + fallback/recovery duration stored unchanged; ServeHTTP dispatches exactly on the admission result. Level 'other'.",
         "NOT decided: timing at real clocks (fast-path admission an instant before the trip counts as arrived before). Trusted: go/ssa, analyser, sync.RWMutex.", "3/C05"),
 "C12": ("rational-function normal form of the admission guard (helpers inlined), event counting per edge, constructor/assignment provenance, must-lockset on the ramp counters, typestate transitions",
         "The allow edge is exactly (allowed+1)/(allowed+denied+1) < 0.5*(now-start)/duration, strictly, zero-guarded; exactly one counter increment per edge with the matching result; a fresh controller (start=now, duration=recoveryDuration) is created at and only at the tripped->recovering site and stored, with until = now + recoveryDuration; counters only touched under the exclusive lock; recovering->standby on now > until, re-trip only via the condition check. Level 'other'.",
         "NOT decided: real-clock granularity; the inductive step 'fraction stays under the ramp' is a paper argument over the checked guard. Trusted: go/ssa, analyser.", "3/C12"),
 "C18": ("ordering-set abstract evaluation of the operator table, registry check of the function map, edge guards and must-pass-through in the check routine, decision table of side effects, typestate (no self-loops)",
         "All eight operators bound; each comparison operator's constructed predicate is true on exactly the standard subset of {<,=,>} (followed through helper constructors, not(), || closures, type switches); and/or short-circuit folds; the three metric functions bound to the same-named metrics methods with arguments in order and milliseconds; trip iff condition true, evaluated only past a re-test of the check period under the exclusive lock with lastCheck advanced; metrics.Reset() after every trip; record-then-check after every served response; side effects launched only from the state setter on their own state, one goroutine, one Exec, nil-guarded, no self-loop transitions. Level 'other'.",
         "NOT decided: numerical values of ratios/quantiles; expression parsing (vulcand/predicate, trusted). Trusted: go/ssa, analyser.", "3/C18"),
 "C06": ("value provenance over the retry loop's phis, field-store audit of the copy routine, must-pass-through with edge deletion (rewind), edge guard (buffering)",
         "Every attempt's request is a copy made in that iteration from the ORIGINAL request, the buffered body and its Size(); the copy routine unconditionally sets a copied URL, a fresh header map, ContentLength=size, empty TransferEncoding, Body=buffered reader, and stores nothing into the original; Seek(0,0) on the buffered body is passed before every re-invocation; the first attempt lies on multibuf.New(req.Body)'s success edge. Level 'other'.",
         "NOT decided: byte equality of what multibuf returns, spill-threshold arithmetic (dependency, trusted). Trusted: go/ssa, analyser.", "3/C06"),
 "C07": ("event counting over all CFG paths, loop-carried-value detection on phis, use-after-mapping path rule, counter/guard normal form for the bound, ordering-set evaluation of the operator tables (buffer + stream)",
         "Recorder never touches the client writer, is fresh per attempt, relayed status/body are this attempt's; exactly one emission on every non-hijacked path and none after it, relay in order headers/status/body; the recorded status is zero-mapped to 200 before any use (relay and retry context); Reader() only on a bytes-written>0 edge; counter init i0, +1 per back edge, back edge only on counter<=K with K-i0+2<=11, Attempts()=invocations so far, no retry with nil predicate; operator tables have the standard ordering sets and the four functions are bound to attempt/status/method/{502,504}. Level 'other'.",
         "NOT decided: byte equality of the relayed body (io.Copy/multibuf), expression parsing (vulcand/predicate). Trusted: go/ssa, analyser.", "3/C07"),
 "C15": ("edge guards, option provenance, defer/ordering path rules, dependency SSA reachability (os.Remove), decision table of the size handler",
         "Handler only on the nil edge of the declared-length check and the success edge of multibuf.New(MaxBytes(maxRequestBodyBytes)); the check refuses ContentLength>max with MaxSizeReachedError -> 413; response writer limited by MaxBytes(maxResponseBodyBytes), write error recorded, relay only on writeError==nil; (from the dependency's SSA) only closing a reader removes the spill file, so a release routine that takes and closes the reader is deferred after the writer's creation, before the handler, in every iteration, and every reader taken has its Close deferred at once; request buffer closed by a deferred call. Level 'other'.",
         "NOT decided: threshold arithmetic inside multibuf. Trusted: go/ssa, analyser, os/ioutil.", "3/C15"),
 "C08": ("paired-field value provenance, edge guards per header key, registry exhaustiveness, decision tables, ordering derived from the installed stdlib's SSA",
         "Path/RawPath/RawQuery copied from one URL that is ParseRequestURI(req.RequestURI) on success else req.URL, RequestURI cleared; HTTP/1.1 constants; Host rewritten exactly when pass-through is off; every forwarding header set only on its own Get(K)==\"\" edge, proto by TLS, X-Real-Ip = host of SplitHostPort(RemoteAddr) before zone stripping, port from Host else 443/80; XHeaders exhaustive and removed first when untrusted; forward.New delegates to httputil.ReverseProxy, does not strip hop-by-hop headers itself, and must set its headers in a hook that the installed stdlib runs after hop-by-hop removal (derived from reverseproxy's SSA). Level 'other'.",
         "Known finding K1: the hook is Director (runs before hop-by-hop removal) - printed as KNOWN-FINDING, not repaired because the repair breaks a pinned test. NOT decided: stdlib escaping / hop-by-hop behaviour itself (trusted). Trusted: go/ssa, analyser, net/http/httputil.", "3/C08"),
 "C11": ("value provenance of returned URLs (membership in the argument slice), sibling agreement of codecs, path rules over both ServeHTTPs, decision tables and edge guards with linear normal forms in the codecs",
         "Every FindURL implementation returns only elements of the pool slice it was given; hash minting and lookup feed the same function of the URL to the hash, two-way codecs compare {Scheme,Host,Path} through the shared comparator; a bad cookie never causes a return or error response before normal selection; pinning only on the present edge with a copied URL, without calling the selection routine; a fresh cookie for the selection's URL is issued before forwarding; ErrNoCookie is not an error; AES authentication failure / expiry return errors and the decoded bytes are sliced only when long enough; the fallback codec consults its second codec whenever the first found nothing. Level 'other'.",
         "NOT decided: cryptographic unforgeability (AES-GCM), round trip of url.Parse(u.String()) for exotic URLs. Trusted: go/ssa, analyser.", "3/C11"),
 "C14": ("key provenance (value flow from the extractor into keyed accesses), backward slice of the admission comparison by normal-form atoms, effect audit of the bucket code, edge guards / call-graph who-may-call in the TTL map",
         "Non-interference by construction: TTL map and connection-counter keys are the extractor's token unchanged; the admission comparison mentions only this source's count, the maximum and the amount; bucket code touches no package-level or limiter state; eviction is requested only by the insertion of a new key, at capacity, for one entry, expired entries first and then the heap minimum ordered strictly by expiry; Get deletes only its own expired entry and its own heap item, PriorityQueue.Remove is unconditional. Level 'other'.",
         "NOT decided: heap correctness (container/heap); the equality 'projection = solo run' is the paper consequence of the rules. Trusted: go/ssa, analyser.", "3/C14"),
 "C20": ("event counting over all CFG paths per middleware, argument provenance of what is handed down, delegation shape of the writer wrappers, decision tables of the intervention handlers",
         "Per-middleware local contract (compositional): exactly one of {wrapped handler invoked, own response produced} on every path to every return of all eight ServeHTTPs (buffer: exactly one emission); the writer handed down is the incoming one or an approved wrapper around it, the request the incoming one or a copy differing only in URL (or the buffer's copy); ProxyWriter / the buffer's recorder forward Flush/Hijack/CloseNotify/Write/WriteHeader/Header to the wrapped writer with no extra condition and mark hijacked only on success; intervention handlers produce one complete response with 429/429/413/503 and delegate other errors. Level 'other'.",
         "NOT decided: byte equality of relayed bodies, HTTP/2 push, ResponseController unwrapping. Trusted: go/ssa, analyser.", "3/C20"),
}


# clauses added after testing against independent seeded changes (waves 2-3); appended to the level text
EXTRA = {
 "C02": " Also: the wrapped balancer's pool is changed only under the rebalancer mutex (must-lockset at call sites); every pool change resets the rotation state.",
 "C03": " Also: the limiter fails closed (wrapped handler only on the nil edge of the extractor's and the consume routine's error); the TTL map is created with the configured capacity after all options ran; the entry lifetime has a proven lower bound >= 1; lastRefresh moves only in the refill routine; every TTL-map call of the limiter is inside the mutex; the advertised delay is exact (C13.R4).",
 "C05": " Also: deadline tests through integer timestamps are rejected; no lock of the breaker is re-acquired while held (String() via %v included) and every acquisition is released on every path.",
 "C06": " Also: utils.CopyHeaders never stores the source's value slices into the destination.",
 "C07": " Also: the client writer's header map is obtained only when the attempt is final; relayed headers are appended, never assigned; hijacked only on success.",
 "C08": " Also: the Host override does not precede the header rewriter; the default ports are returned only when the Host carries no port.",
 "C09": " Also: no self-deadlock (lock in the must-lockset re-acquired); Clone/Export snapshots own their storage; the limiter's get-or-create is one critical section.",
 "C10": " Also: the convergence step is guarded by current != configured only; result/application correlation decided by a relational flag fixpoint.",
 "C11": " Also: cookie candidates and normal selection come from the same pool.",
 "C12": " Also: lock pairing and no re-acquisition in package cbreaker.",
 "C13": " Also: the refill shape of C03.R4 (credit exactly the elapsed time; checkpoint moves only with a credit).",
 "C14": " Also: the TTL map has the configured capacity; the client.ip token is the parser's host (distinct peers never share state).",
 "C15": " Also: Reader() is not taken after WriterOnce.Close() in the release routine (order derived from the dependency's SSA); the limit is applied to req.Body itself.",
 "C16": " Also: utils.ProxyWriter forwards Header/Write/WriteHeader unchanged.",
 "C17": " Also: a clone owns its bucket slice.",
 "C18": " Also: the reset is complete (every part of RTMetrics, every bucket of counters and histograms, full-range loops); RTMetrics accesses are race-free so no recorded response is lost.",
 "C20": " Also: headers are relayed by appending through a full-range, non-aliasing copy; the limiter's bookkeeping call cannot fail for any configured rate.",
}

EXTRA3 = {
 "C01": " Also: the refusing (all-zero) exit of the selection leaves the iterator reset; the rebalancer does not restart the rotation without changing a weight.",
 "C02": " Also: a failed add through the rebalancer is undone in the wrapped balancer; identity functions compare URL fields exactly.",
 "C04": " Also: the per-source entry is dropped only at count zero; the built-in extractors name the source exactly.",
 "C06": " Also: the verbose request dump only reads the request.",
 "C07": " Also: per-attempt header map; only Write feeds the response buffer; an attempt is delivered only when the retry expression is false (or absent / bound exhausted).",
 "C08": " Also: port 80 only for a non-TLS connection.",
 "C09": " Also: get-or-create insertions are atomic with their look-up; locks held across user code are released by defer; the module's own implementations of its extension interfaces and the TTL map are analysed as roots.",
 "C10": " Also: adjustment loops visit every record; weights are applied only after, and always after, a change.",
 "C11": " Also: the candidate list is the whole pool; two-way codecs encode raw.String(); the issued cookie is computed by the codec in the same call.",
 "C14": " Also: the expiry heap is re-ordered after every priority change; limiter locks held across user code are released by defer.",
 "C15": " Also: only Write feeds the response buffer; WriterOnce.Close only in the release routine.",
 "C16": " Also: an unparsable RequestURI falls back to req.URL.",
 "C17": " Also: the clean-up sweep is never skipped; the constructor stores the requested resolution unchanged.",
 "C20": " Also: the verbose request dump is read-only; no middleware re-acquires a lock it holds.",
}
for _k, _v in EXTRA3.items():
    EXTRA[_k] = EXTRA.get(_k, "") + _v

EXTRA4 = {
 "C01": " Also: identity compares URL fields exactly; a refused server option stores nothing.",
 "C02": " Also: no failing return once the rebalancer recorded a server; default weight only for new records; options are atomic.",
 "C03": " Also: renewing a tracked key always re-arms its deadline; no constant cap on the entry lifetime.",
 "C05": " Also: locks are taken in one order; side-effect hooks run in their own goroutine.",
 "C06": " Also: utils.CopyURL copies every field.",
 "C07": " Also: the recorder keeps the last status written.",
 "C08": " Also: the Director does not rewrite Connection; the request dump does not fill req.Form.",
 "C09": " Also: lock order is acyclic per object; no atomic Load-compute-Store on one word; state pointers handed to handlers are reads at the call.",
 "C12": " Also: the request that opens the recovery is decided by the ramp controller.",
 "C13": " Also: the returned delay derives from the buckets' results only; nothing handed to the error handler after unlocking is shared limiter state.",
 "C14": " Also: NewTTLMap stores its capacity argument uncapped.",
 "C17": " Also: bucket writes are zeroing or += parameter.",
 "C18": " Also: ResponseCodeRatio ranges are half-open; the recording writer records the last status.",
 "C19": " Also: client.ip refuses an empty host.",
 "C20": " Also: ProxyWriter constructors wrap the writer they are given.",
}
for _k, _v in EXTRA4.items():
    EXTRA[_k] = EXTRA.get(_k, "") + _v

EXTRA5 = {
 "C01": " Also: a member's stored URL is never edited in place.",
 "C02": " Also: lookup and append are one critical section; the error handler is defaulted after the options ran; no URL object is edited in place.",
 "C03": " Also: the bucket is refilled before its level is read; a tracked source is updated from its own request's rates on every hit.",
 "C04": " Also: the wrapped handler runs only after a successful acquire.",
 "C05": " Also: the wrapped handler is reached only through the admission routine; the fallback duration is stored as configured.",
 "C06": " Also: the replayed body is the multibuf buffer itself (no wrapper).",
 "C07": " Also: a retry the expression asks for is made (only a failed rewind / buffer allocation exits); bodiless statuses are exactly 1xx, 204, 304.",
 "C08": " Also: each forwarder gets a freshly allocated header rewriter.",
 "C09": " Also: memmetrics never hands out an object it keeps updating; counts are given back by defer; pool URL objects are not handed downstream.",
 "C10": " Also: rebalancer lookups use the pool's identity function; critical sections running user code unlock by defer.",
 "C11": " Also: the issued cookie's Path is never empty; the encrypted codec stamps the expiry in seconds; the forwarder keeps the chosen Scheme/Host.",
 "C12": " Also: the recovery duration is stored as configured; the recording writer keeps the last status.",
 "C13": " Also: every bucket of the set is consulted on every request.",
 "C14": " Also: a source's buckets follow the rates of its own request on every hit.",
 "C15": " Also: nothing returns between buffering the request body and registering its release; the error handler is defaulted after the options ran.",
 "C16": " Also: ProxyWriter.Header returns the live header map on every path; Hijack/Flush/CloseNotify only delegate; the standard error handler has no unsynchronised state; the deferred 'disconnected' URL is evaluated at registration.",
 "C17": " Also: the clean-up that precedes a bucket access is the clean-up of the same counter; the rebalancer feeds its meters under its mutex; get-or-create of status counters is re-checked.",
 "C18": " Also: the check period is stored as configured; the metrics' locks are taken in one order.",
 "C20": " Also: every middleware's error handler is defaulted after the options ran; counts are given back under the key they were taken with; trip side effects do not run under the lock.",
}
for _k, _v in EXTRA5.items():
    EXTRA[_k] = EXTRA.get(_k, "") + _v

EXTRA6 = {
 "C01": " Also: a weight set through the rebalancer replaces the remembered one on every path of the found edge.",
 "C02": " Also: the same for the rebalancer's record; weights are re-applied only after a change.",
 "C03": " Also: the cap at burst is passed on every way through the refill.",
 "C04": " Also: the per-source table is assigned only at construction; release lowers the count on every path.",
 "C05": " Also: the state setter stores the deadline it is given on every path; no timer, goroutine or method value moves the state.",
 "C07": " Also: CopyHeaders keeps keys and values as stored.",
 "C08": " Also: the Host's port is used only when non-empty.",
 "C09": " Also: configured header maps are never installed into a request; the shared header rewriter is not written on the request path.",
 "C11": " Also: the encrypted codec cuts the payload at the stamp separator only where the stamp is checked; CopyHeaders adds to existing values.",
 "C12": " Also: a recovery is ended only on a request's own path; transition hooks do not run under the lock.",
 "C13": " Also: a delay replaces the running maximum only when compared larger; the built-in extractors name the source exactly.",
 "C14": " Also: room is made before the new entry is stored; a bucket owns its numbers.",
 "C15": " Also: every MaxSizeReachedError is answered 413; the four size options store their argument unchanged.",
 "C16": " Also: every ProxyWriter constructor sets a logger.",
 "C17": " Also: a Clone copies the window slot by slot and keeps the receiver's time stamp; ratios are read in one critical section; Record counts every response.",
 "C18": " Also: Record counts every response; the clean-up visits every slot that may be stale.",
 "C19": " Also: client.ip refuses only what the parser refuses or an empty host.",
 "C20": " Also: every lock of package roundrobin is released on every path.",
}
for _k, _v in EXTRA6.items():
    EXTRA[_k] = EXTRA.get(_k, "") + _v

EXTRA7 = {
 "C02": " Also: a weight of 0 stays 0 under the rebalancer; every lock of the balancers is released on every path.",
 "C03": " Also: Update keeps the buckets it has, applies the given rates on every call and recomputes the longest period whenever it resets it; the built-in extractors name the source exactly.",
 "C05": " Also: the fallback is never the protected handler.",
 "C06": " Also: the buffered body is handed down behind io.NopCloser.",
 "C07": " Also: the client's header map is not edited besides the merge of the final attempt's headers.",
 "C08": " Also: package forward removes only the X-* registry from request headers and never writes a header map directly; req.URL is the target only when RequestURI is empty or does not parse.",
 "C09": " Also: RTMetrics.Append reads the other collector through its snapshot only.",
 "C10": " Also: outliers are reported exactly when both groups of the split are non-empty; the normalising divisor is folded over current weights only.",
 "C11": " Also: no shared mutable cookie prototype; the pool lock is not held across user cookie code without defer; a discarded attempt's headers do not survive.",
 "C13": " Also: the bucket set is keyed by the unchanged source token; the buckets follow the rates handed in on every request.",
 "C14": " Also: every insertion into the expiry queue goes through heap.Push; the entry lifetime follows the source's own rates.",
 "C15": " Also: no request reaches the handler around the buffer.",
 "C16": " Also: a FlushError method falls back to Flush.",
 "C17": " Also: the slot of an instant is a pure function of instant, resolution and slot count; the metrics' builders run after the options.",
 "C18": " Also: the breaker does not take its own lock again while changing state.",
 "C20": " Also: recording and reset take the metrics' locks in one order; a request at exactly the limit is not refused; the affinity cookie is added, not set.",
}
for _k, _v in EXTRA7.items():
    EXTRA[_k] = EXTRA.get(_k, "") + _v

NA = {}

def main():
    have = subprocess.run([os.path.join(ROOT, "bin/oxycheck"), "list"], capture_output=True, text=True).stdout.split()
    checks = []
    na = []
    props = [json.loads(l) for l in open(os.path.join(ROOT, "properties.jsonl"))]
    for pr in props:
        pid = pr["id"]
        if pid in have and pid in P:
            tech, text, note, ref = P[pid]
            text = text + EXTRA.get(pid, "")
            checks.append({
                "property_id": pid,
                "quick_cmd": f"bin/oxycheck check -p {pid} -tier quick",
                "thorough_cmd": f"bin/oxycheck check -p {pid} -tier thorough",
                "evidence_file": f"evidence/{pid}.json",
                "replay_cmd_template": "bin/oxycheck explain {path}",
                "engine": "oxycheck",
                "level_claimed": {"category": "other", "text": text, "design_ref": "DESIGN.md section " + ref},
                "level_note": note,
                "technique": "static analysis: " + tech,
            })
        else:
            na.append({"property_id": pid, "reason": NA.get(pid, "no static check registered for this property yet (rules designed in DESIGN.md section 3 are not built at this commit); nothing is claimed")})
    m = {
        "version": 1,
        "setup_cmd": "cd checker && GOFLAGS=-mod=vendor GOPROXY=off GOSUMDB=off GOTOOLCHAIN=local GOWORK=off go build -o ../bin/oxycheck .",
        "hooks": {
            "guard": "verif",
            "enable": "none needed: the checks read /repo's source (go/packages + go/ssa) and never build or run it; no hook or instrumentation commit exists",
            "baseline_off_cmd": BASELINE_OFF,
            "source_commits": [],
            "add_only": True,
        },
        "engines": [{
            "name": "oxycheck",
            "path": "checker/",
            "serves_properties": [c["property_id"] for c in checks],
            "kind_free_text": "repository-specific static analyser over go/packages + go/ssa + VTA call graph: must-lockset with access paths, CFG path rules (edge deletion, must-pass-through, defer, event counting), value flow, expression normal forms with dimensions, finite-domain typestate / ordering sets / decision tables; overlay-based mutation self-test in the thorough tier",
        }],
        "checks": checks,
        "not_applicable": na,
        "notes": "Technique family: static analysis only. Every check loads /repo's current working tree, type-checks it, builds SSA for the whole program and evaluates repository-specific rules; nothing is executed or handed to a solver. All claims are level 'other' (lints with a stated argument). Clauses that no sound static argument in reach decides are listed per check in level_note / evidence.not_decided. Genuine defects found are repaired by 'fix:' commits in /repo and recorded in known_findings.json; unrepaired ones are printed as KNOWN-FINDING.",
    }
    json.dump(m, open(os.path.join(ROOT, "MANIFEST.json"), "w"), indent=1)
    print("checks:", [c["property_id"] for c in checks], "n/a:", [x["property_id"] for x in na])

if __name__ == "__main__":
    main()
