#!/usr/bin/env python3
"""fill_needs.py — fills meta.json's what_it_needs from the 'needed to manifest' section of NOTES.md (seeds whose field is empty)."""
import json, glob, os, re
def needs(notes):
    lines = notes.splitlines()
    for i, l in enumerate(lines):
        if re.search(r"manifest|what it needs|what is needed|trigger", l, re.I) and (l.startswith("#") or l.startswith("**") or l.rstrip().endswith(":")):
            out = []
            for m in lines[i+1:]:
                if m.startswith("#") and out: break
                if m.startswith("#"): continue
                out.append(m)
                if len(" ".join(out)) > 700: break
            t = " ".join(x.strip() for x in out if x.strip())
            if t: return t[:800]
    for l in lines:
        if re.search(r"manifest", l, re.I) and len(l) > 40:
            return l.strip()[:800]
    return ""
def main():
  n = 0
  for d in sorted(glob.glob("/verif/seeded/C*-*")):
      mp, np_ = os.path.join(d, "meta.json"), os.path.join(d, "NOTES.md")
      if not (os.path.exists(mp) and os.path.exists(np_)): continue
      m = json.load(open(mp))
      if m.get("what_it_needs"): continue
      t = needs(open(np_).read())
      if t:
          m["what_it_needs"] = t
          json.dump(m, open(mp, "w"), indent=1); n += 1
  print("filled", n)

if __name__ == "__main__":
  main()
