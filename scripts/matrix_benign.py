#!/usr/bin/env python3
"""matrix.py [pattern] — run every check against every stored seeded change / regression in scratch
worktrees of /repo (never touching /repo itself or the committed evidence) and print which rules fire.
Writes /verif/benign/MATRIX.json."""
import os, sys, json, glob, subprocess, tempfile, shutil, re
from concurrent.futures import ThreadPoolExecutor

PROPS = ["C%02d" % i for i in range(1, 21)]
def run_seed(d):
    name = os.path.basename(d)
    wt = tempfile.mkdtemp(prefix="mx-" + name + "-", dir="/tmp")
    os.rmdir(wt)
    subprocess.run(["git", "-C", "/repo", "worktree", "add", "-q", "--detach", wt, "HEAD"], check=True, capture_output=True)
    res = {}
    try:
        p = subprocess.run(["git", "-C", wt, "apply", os.path.join(d, "patch.diff")], capture_output=True, text=True)
        if p.returncode != 0:
            return name, {"error": "patch does not apply: " + p.stderr[-200:]}
        ev = wt + "-ev"
        os.makedirs(ev, exist_ok=True)
        env = dict(os.environ, OXY_REPO=wt, OXY_EVIDENCE_DIR=ev)
        def one(pid):
            q = subprocess.run([os.environ.get("OXY_BIN", "/verif/bin/oxycheck"), "check", "-p", pid, "-tier", "quick"], capture_output=True, text=True, env=env, cwd="/verif")
            fails = sorted(set(re.findall(r"^FAIL\s+(\S+)", q.stdout, re.M)))
            return pid, q.returncode, fails
        with ThreadPoolExecutor(max_workers=4) as ex:
            for pid, rc, fails in ex.map(one, PROPS):
                if rc != 0:
                    res[pid] = fails
        shutil.rmtree(ev, ignore_errors=True)
    finally:
        subprocess.run(["git", "-C", "/repo", "worktree", "remove", "--force", wt], capture_output=True)
    return name, res

def main():
    pat = sys.argv[1] if len(sys.argv) > 1 else ""
    dirs = sorted(d for d in glob.glob("/verif/benign/*") if os.path.isdir(d))
    dirs = [d for d in dirs if pat in d]
    out = {}
    with ThreadPoolExecutor(max_workers=4) as ex:
        for name, res in ex.map(run_seed, dirs):
            out[name] = res
            own = name.split("-")[0] if name.startswith("C") else None
            caught = "CAUGHT" if (own in res if own else bool(res)) else ("caught-elsewhere" if res else "MISSED")
            print(f"{name:8s} {caught:16s} " + "; ".join(f"{k}:{','.join(v)}" for k, v in sorted(res.items()) if k != "error") + (res.get("error", "") if isinstance(res, dict) else ""), flush=True)
    if not pat:
        json.dump(out, open("/verif/benign/MATRIX.json", "w"), indent=1, sort_keys=True)

if __name__ == "__main__":
    main()
