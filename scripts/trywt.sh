#!/bin/bash
# trywt.sh <patch> <props...> — like tryseed.sh but in a scratch worktree (never touches /repo's working tree)
patch=$1; shift
wt=$(mktemp -d /tmp/trywt-XXXXXX); rmdir $wt
git -C /repo worktree add -q --detach $wt HEAD || exit 2
trap "git -C /repo worktree remove --force $wt; rm -rf $wt-ev" EXIT
git -C $wt apply $patch || { echo "patch does not apply"; exit 2; }
mkdir -p $wt-ev
for p in "$@"; do
  out=$(OXY_REPO=$wt OXY_EVIDENCE_DIR=$wt-ev /verif/bin/oxycheck check -p $p -tier quick 2>&1); rc=$?
  echo "== $p exit=$rc"; echo "$out" | grep "^FAIL" 
done
