#!/usr/bin/env python3
"""confirm_seed.py <ID> <N> [srcdir]
Confirms a seeded change delivered by an independent sub-agent (under /tmp/seed/<ID>/_seed/<N>)
in a fresh scratch worktree of /repo HEAD:
  demo passes on the unchanged tree; patch applies; library builds; demo FAILS with the patch;
  the complete pinned suite passes with the patch (demo removed).
On success stores it as /verif/seeded/<ID>-<N>/ (patch.diff, demo, NOTES.md, meta.json).
The scratch worktree is removed in every case."""
import sys, os, re, subprocess, shutil, json, glob, datetime

ENV = dict(os.environ, GOFLAGS="-mod=mod", GOPROXY="off", GOSUMDB="off", GOTOOLCHAIN="local")

def sh(cmd, cwd, timeout=1500):
    p = subprocess.run(cmd, shell=True, cwd=cwd, env=ENV, capture_output=True, text=True, timeout=timeout)
    return p.returncode, (p.stdout + p.stderr)

def main():
    pid, n = sys.argv[1], sys.argv[2]
    src = sys.argv[3] if len(sys.argv) > 3 else f"/tmp/seed/{pid}/_seed/{n}"
    name = sys.argv[4] if len(sys.argv) > 4 else f"{pid}-{n}"
    wt = f"/tmp/confirm/{name}"
    os.makedirs("/tmp/confirm", exist_ok=True)
    subprocess.run(f"git -C /repo worktree remove --force {wt}", shell=True, capture_output=True)
    rc, out = sh(f"git -C /repo worktree add -q --detach {wt} HEAD", "/")
    if rc != 0:
        print(pid, n, "worktree failed", out); return 2
    res = {"property": pid, "seed": n, "confirmed": False}
    try:
        dp = open(os.path.join(src, "DEMO_PATH.txt")).read()
        demos = sorted(glob.glob(os.path.join(src, "*_test.go")))
        dests = re.findall(r"([\w./-]+/[\w.-]+_test\.go)", dp)
        dests = [d for d in dests if not d.startswith("_seed")]
        cmdline = None
        for line in dp.splitlines():
            if "go test" in line and "export" in line and ";" in line:
                cmdline = line.split(";", 1)[1].strip()
            elif "go test" in line and cmdline is None:
                cmdline = line.strip()
        if cmdline and cmdline.startswith("export"):
            cmdline = cmdline.split(";", 1)[-1].strip()
        placed = []
        for d in demos:
            base = os.path.basename(d)
            dest = next((x for x in dests if os.path.basename(x) == base), None)
            if dest is None and dests:
                dest = os.path.join(os.path.dirname(dests[0]), base)
            if dest is None:
                print(pid, n, "cannot place demo", base); return 2
            os.makedirs(os.path.dirname(os.path.join(wt, dest)), exist_ok=True)
            shutil.copy(d, os.path.join(wt, dest)); placed.append(dest)
        res["demo_files"] = placed
        res["demo_cmd"] = cmdline
        if not cmdline:
            print(pid, n, "no demo command found"); return 2
        rc0, out0 = sh(cmdline, wt)
        res["demo_without_change"] = "pass" if rc0 == 0 else "FAIL"
        rc, out = sh(f"git apply {src}/patch.diff", wt)
        if rc != 0:
            res["error"] = "patch does not apply: " + out[-300:]
        else:
            rcb, outb = sh("go build ./... ", wt)
            res["build_with_change"] = "ok" if rcb == 0 else "FAIL " + outb[-300:]
            rc1, out1 = sh(cmdline, wt)
            res["demo_with_change"] = "fail (as required)" if rc1 != 0 else "PASSES (seed not demonstrated)"
            res["demo_output_tail"] = out1[-600:]
            for d in placed:
                os.remove(os.path.join(wt, d))
            rcs, outs = sh("go test -vet=off -count=1 ./...", wt)
            res["suite_with_change"] = "pass" if rcs == 0 else "FAIL " + outs[-500:]
            res["confirmed"] = (rc0 == 0 and rcb == 0 and rc1 != 0 and rcs == 0)
        notes = os.path.join(src, "NOTES.md")
        res["what_it_needs"] = ""
        if os.path.exists(notes):
            sys.path.insert(0, os.path.dirname(os.path.abspath(__file__)))
            from fill_needs import needs
            res["what_it_needs"] = needs(open(notes).read())
        res["confirmed_at"] = datetime.datetime.utcnow().isoformat() + "Z"
        res["repo_head"] = subprocess.run("git -C /repo rev-parse --short HEAD", shell=True, capture_output=True, text=True).stdout.strip()
        res["ran"] = ["demo on unchanged worktree", "git apply patch.diff", "go build ./...", "demo with change", "go test -vet=off -count=1 ./... with change (demo removed)"]
        if res["confirmed"]:
            dst = f"/verif/seeded/{name}"
            os.makedirs(dst, exist_ok=True)
            shutil.copy(os.path.join(src, "patch.diff"), dst)
            for d in demos:
                # keep demos under a name go tooling ignores inside /verif
                shutil.copy(d, os.path.join(dst, os.path.basename(d) + ".txt"))
            shutil.copy(os.path.join(src, "DEMO_PATH.txt"), dst)
            if os.path.exists(notes):
                shutil.copy(notes, dst)
            json.dump(res, open(os.path.join(dst, "meta.json"), "w"), indent=1)
        print(name, "CONFIRMED" if res["confirmed"] else "REJECTED", {k: v for k, v in res.items() if k in ("demo_without_change", "build_with_change", "demo_with_change", "suite_with_change", "error")})
    finally:
        subprocess.run(f"git -C /repo worktree remove --force {wt}", shell=True, capture_output=True)
    return 0

if __name__ == "__main__":
    sys.exit(main())
