#!/bin/bash
# wave.sh <wave-no> <ID>... — confirm the three deliveries of each property's seed agent (in /tmp/seed/<ID>/_seed/N) and run the check matrix on the confirmed ones
w=$1; shift
for id in "$@"; do
  for n in 1 2 3; do
    [ -f /tmp/seed/$id/_seed/$n/patch.diff ] || { echo "$id $n: no delivery"; continue; }
    [ -d /verif/seeded/$id-w$w-$n ] && continue
    python3 /verif/scripts/confirm_seed.py $id $n /tmp/seed/$id/_seed/$n $id-w$w-$n &
  done
done
wait
for id in "$@"; do python3 /verif/scripts/matrix.py $id-w$w- ; done
